package main

// E3 PATHS: structural path enumeration over the typed AST.
//
// A statement list is expanded into the set of its structural paths. No
// feasibility reasoning is done except the pruning of a path that takes both
// outcomes of the same side-effect-free condition with no intervening
// assignment to an identifier of that condition.

import (
	"go/ast"
	"go/token"
	"go/types"
	"strings"
)

type Event struct {
	Kind   string
	Node   ast.Node
	Data   any
	InLoop bool
}

type CondStep struct {
	Expr  ast.Expr // nil for type-switch / select clauses
	Taken bool
	Label string
}

type Path struct {
	Events  []Event
	Conds   []CondStep
	End     string // fall, return, continue, break, panic
	EndNode ast.Node
}

func (p Path) count(kind string) int {
	n := 0
	for _, e := range p.Events {
		if e.Kind == kind {
			n++
		}
	}
	return n
}

func (p Path) has(kind string) bool { return p.count(kind) > 0 }

func (p Path) describe(pr *Prog) string {
	var sb strings.Builder
	for i, c := range p.Conds {
		if i > 0 {
			sb.WriteString(" → ")
		}
		if c.Expr != nil {
			if !c.Taken {
				sb.WriteString("!")
			}
			sb.WriteString("(" + types.ExprString(c.Expr) + ")")
		} else {
			sb.WriteString(c.Label)
		}
	}
	sb.WriteString(" ⇒ [")
	for i, e := range p.Events {
		if i > 0 {
			sb.WriteString(", ")
		}
		sb.WriteString(e.Kind + "@" + lineOf(pr, e.Node))
	}
	sb.WriteString("] end=" + p.End)
	return sb.String()
}

func lineOf(pr *Prog, n ast.Node) string {
	if n == nil {
		return "-"
	}
	s := pr.pos(n.Pos())
	if i := strings.LastIndex(s, ":"); i >= 0 {
		return s[i+1:]
	}
	return s
}

type pathEnum struct {
	info     *types.Info
	ev       func(n ast.Node) []Event
	cap      int
	overflow bool
	unsup    []string
	inLoop   int
}

const pathCap = 4096

// enumPaths enumerates the structural paths through stmts. ev is called on
// every simple statement and condition expression and returns the events it
// contains (in evaluation order).
func enumPaths(info *types.Info, stmts []ast.Stmt, ev func(n ast.Node) []Event) ([]Path, *pathEnum) {
	pe := &pathEnum{info: info, ev: ev, cap: pathCap}
	start := []Path{{End: "fall"}}
	out := pe.seq(start, stmts)
	return out, pe
}

func (pe *pathEnum) events(n ast.Node) []Event {
	if n == nil {
		return nil
	}
	evs := pe.ev(n)
	if pe.inLoop > 0 {
		for i := range evs {
			evs[i].InLoop = true
		}
	}
	return evs
}

func clonePath(p Path) Path {
	q := Path{End: p.End, EndNode: p.EndNode}
	q.Events = append([]Event(nil), p.Events...)
	q.Conds = append([]CondStep(nil), p.Conds...)
	return q
}

func extend(p Path, evs []Event) Path {
	q := clonePath(p)
	q.Events = append(q.Events, evs...)
	return q
}

// seq runs the live ("fall") paths through the statements.
func (pe *pathEnum) seq(in []Path, stmts []ast.Stmt) []Path {
	cur := in
	var done []Path
	for _, s := range stmts {
		var live []Path
		for _, p := range cur {
			if p.End != "fall" {
				done = append(done, p)
			} else {
				live = append(live, p)
			}
		}
		if len(live) == 0 {
			cur = nil
			break
		}
		cur = pe.stmt(live, s)
		if len(cur)+len(done) > pe.cap {
			pe.overflow = true
			return append(done, cur...)
		}
	}
	return append(done, cur...)
}

func (pe *pathEnum) isTerminatingCall(call *ast.CallExpr) bool {
	switch f := call.Fun.(type) {
	case *ast.Ident:
		if f.Name == "panic" {
			if _, ok := pe.info.Uses[f].(*types.Builtin); ok {
				return true
			}
		}
	case *ast.SelectorExpr:
		name := f.Sel.Name
		if strings.HasPrefix(name, "Fatal") || strings.HasPrefix(name, "Exit") || name == "FailNow" || strings.HasPrefix(name, "Skip") || strings.HasPrefix(name, "Panic") {
			if obj, ok := pe.info.Uses[f.Sel].(*types.Func); ok {
				pk := ""
				if obj.Pkg() != nil {
					pk = obj.Pkg().Path()
				}
				switch pk {
				case "testing", "github.com/golang/glog", "log", "os", "runtime":
					return true
				}
			}
		}
	}
	return false
}

func (pe *pathEnum) stmt(in []Path, s ast.Stmt) []Path {
	switch s := s.(type) {
	case nil:
		return in
	case *ast.BlockStmt:
		return pe.seq(in, s.List)
	case *ast.LabeledStmt:
		return pe.stmt(in, s.Stmt)
	case *ast.ExprStmt:
		evs := pe.events(s)
		term := false
		if call, ok := s.X.(*ast.CallExpr); ok && pe.isTerminatingCall(call) {
			term = true
		}
		var out []Path
		for _, p := range in {
			q := extend(p, evs)
			if term {
				q.End, q.EndNode = "panic", s
			}
			out = append(out, q)
		}
		return out
	case *ast.AssignStmt, *ast.IncDecStmt, *ast.DeclStmt, *ast.SendStmt, *ast.GoStmt, *ast.DeferStmt, *ast.EmptyStmt:
		evs := pe.events(s)
		var out []Path
		for _, p := range in {
			out = append(out, extend(p, evs))
		}
		return out
	case *ast.ReturnStmt:
		evs := pe.events(s)
		var out []Path
		for _, p := range in {
			q := extend(p, evs)
			q.End, q.EndNode = "return", s
			out = append(out, q)
		}
		return out
	case *ast.BranchStmt:
		var out []Path
		for _, p := range in {
			q := clonePath(p)
			switch s.Tok {
			case token.CONTINUE:
				q.End = "continue"
			case token.BREAK:
				q.End = "break"
			default:
				pe.unsup = append(pe.unsup, s.Tok.String())
				q.End = "panic"
			}
			if s.Label != nil {
				pe.unsup = append(pe.unsup, "labelled "+s.Tok.String())
			}
			q.EndNode = s
			out = append(out, q)
		}
		return out
	case *ast.IfStmt:
		cur := in
		if s.Init != nil {
			cur = pe.stmt(cur, s.Init)
		}
		cevs := pe.events(s.Cond)
		var out []Path
		for _, p := range cur {
			if p.End != "fall" {
				out = append(out, p)
				continue
			}
			base := extend(p, cevs)
			tp := clonePath(base)
			tp.Conds = append(tp.Conds, CondStep{Expr: s.Cond, Taken: true})
			fp := clonePath(base)
			fp.Conds = append(fp.Conds, CondStep{Expr: s.Cond, Taken: false})
			if !pe.infeasible(tp) {
				out = append(out, pe.seq([]Path{tp}, s.Body.List)...)
			}
			if !pe.infeasible(fp) {
				if s.Else != nil {
					out = append(out, pe.stmt([]Path{fp}, s.Else)...)
				} else {
					out = append(out, fp)
				}
			}
		}
		return out
	case *ast.SwitchStmt:
		cur := in
		if s.Init != nil {
			cur = pe.stmt(cur, s.Init)
		}
		var tagEvs []Event
		if s.Tag != nil {
			tagEvs = pe.events(s.Tag)
		}
		var out []Path
		for _, p := range cur {
			if p.End != "fall" {
				out = append(out, p)
				continue
			}
			base := extend(p, tagEvs)
			out = append(out, pe.switchClauses(base, s)...)
		}
		return pe.afterBreakable(out)
	case *ast.TypeSwitchStmt:
		cur := in
		if s.Init != nil {
			cur = pe.stmt(cur, s.Init)
		}
		aevs := pe.events(s.Assign)
		var out []Path
		for _, p := range cur {
			if p.End != "fall" {
				out = append(out, p)
				continue
			}
			base := extend(p, aevs)
			hasDefault := false
			for _, cc := range s.Body.List {
				cl := cc.(*ast.CaseClause)
				q := clonePath(base)
				lbl := "default"
				if cl.List == nil {
					hasDefault = true
				} else {
					var ts []string
					for _, e := range cl.List {
						ts = append(ts, types.ExprString(e))
					}
					lbl = "type " + strings.Join(ts, ",")
				}
				q.Conds = append(q.Conds, CondStep{Label: lbl, Taken: true})
				out = append(out, pe.seq([]Path{q}, cl.Body)...)
			}
			if !hasDefault {
				q := clonePath(base)
				q.Conds = append(q.Conds, CondStep{Label: "type <no case>", Taken: true})
				out = append(out, q)
			}
		}
		return pe.afterBreakable(out)
	case *ast.SelectStmt:
		var out []Path
		for _, p := range in {
			for _, cc := range s.Body.List {
				cl := cc.(*ast.CommClause)
				q := clonePath(p)
				lbl := "select default"
				if cl.Comm != nil {
					lbl = "select comm"
					q.Events = append(q.Events, pe.events(cl.Comm)...)
				}
				q.Conds = append(q.Conds, CondStep{Label: lbl, Taken: true})
				out = append(out, pe.seq([]Path{q}, cl.Body)...)
			}
		}
		return pe.afterBreakable(out)
	case *ast.ForStmt:
		cur := in
		if s.Init != nil {
			cur = pe.stmt(cur, s.Init)
		}
		var condEvs []Event
		if s.Cond != nil {
			condEvs = pe.events(s.Cond)
		}
		return pe.loop(cur, condEvs, s.Body, s.Post, s.Cond == nil, s)
	case *ast.RangeStmt:
		xevs := pe.events(s.X)
		var cur []Path
		for _, p := range in {
			cur = append(cur, extend(p, xevs))
		}
		return pe.loop(cur, nil, s.Body, nil, false, s)
	default:
		pe.unsup = append(pe.unsup, "statement kind")
		return in
	}
}

// loop models a loop as zero or one iteration; events inside are flagged InLoop.
func (pe *pathEnum) loop(in []Path, condEvs []Event, body *ast.BlockStmt, post ast.Stmt, infinite bool, node ast.Node) []Path {
	var out []Path
	for _, p := range in {
		if p.End != "fall" {
			out = append(out, p)
			continue
		}
		base := extend(p, condEvs)
		if !infinite {
			z := clonePath(base)
			z.Conds = append(z.Conds, CondStep{Label: "loop×0", Taken: true})
			out = append(out, z)
		}
		one := clonePath(base)
		one.Conds = append(one.Conds, CondStep{Label: "loop×1", Taken: true})
		pe.inLoop++
		bodyPaths := pe.seq([]Path{one}, body.List)
		if post != nil {
			var bp2 []Path
			for _, q := range bodyPaths {
				if q.End == "fall" || q.End == "continue" {
					q.End = "fall"
					bp2 = append(bp2, pe.stmt([]Path{q}, post)...)
				} else {
					bp2 = append(bp2, q)
				}
			}
			bodyPaths = bp2
		}
		pe.inLoop--
		for _, q := range bodyPaths {
			switch q.End {
			case "fall", "continue":
				if infinite {
					// the loop can only be left by break/return/panic; a path that
					// completes an iteration re-enters it and is dropped here (its
					// events were seen on the iteration that does leave).
					continue
				}
				q.End = "fall"
			case "break":
				q.End = "fall"
			}
			out = append(out, q)
		}
	}
	return out
}

func (pe *pathEnum) afterBreakable(ps []Path) []Path {
	for i := range ps {
		if ps[i].End == "break" {
			ps[i].End = "fall"
		}
	}
	return ps
}

func (pe *pathEnum) switchClauses(base Path, s *ast.SwitchStmt) []Path {
	var out []Path
	var defaultClause *ast.CaseClause
	neg := clonePath(base) // path on which all previous cases were false
	for _, cc := range s.Body.List {
		cl := cc.(*ast.CaseClause)
		if cl.List == nil {
			defaultClause = cl
			continue
		}
		// a clause with several expressions is taken if any is true
		for i, e := range cl.List {
			q := clonePath(neg)
			for _, prev := range cl.List[:i] {
				q.Events = append(q.Events, pe.events(prev)...)
				q.Conds = append(q.Conds, pe.caseCond(s, prev, false))
			}
			q.Events = append(q.Events, pe.events(e)...)
			q.Conds = append(q.Conds, pe.caseCond(s, e, true))
			if !pe.infeasible(q) {
				out = append(out, pe.clauseBody(q, cl)...)
			}
		}
		for _, e := range cl.List {
			neg.Events = append(neg.Events, pe.events(e)...)
			neg.Conds = append(neg.Conds, pe.caseCond(s, e, false))
		}
	}
	if !pe.infeasible(neg) {
		if defaultClause != nil {
			d := clonePath(neg)
			d.Conds = append(d.Conds, CondStep{Label: "default", Taken: true})
			out = append(out, pe.clauseBody(d, defaultClause)...)
		} else {
			out = append(out, neg)
		}
	}
	return out
}

func (pe *pathEnum) clauseBody(p Path, cl *ast.CaseClause) []Path {
	for _, st := range cl.Body {
		if b, ok := st.(*ast.BranchStmt); ok && b.Tok == token.FALLTHROUGH {
			pe.unsup = append(pe.unsup, "fallthrough")
		}
	}
	return pe.seq([]Path{p}, cl.Body)
}

func (pe *pathEnum) caseCond(s *ast.SwitchStmt, e ast.Expr, taken bool) CondStep {
	if s.Tag == nil {
		return CondStep{Expr: e, Taken: taken}
	}
	return CondStep{Expr: &ast.BinaryExpr{X: s.Tag, Op: token.EQL, Y: e}, Taken: taken}
}

// infeasible prunes a path that decides one pure condition both ways. Only
// the last step is compared with earlier ones, and only if no event-free
// guarantee is needed: conditions containing calls are never pruned.
func (pe *pathEnum) infeasible(p Path) bool {
	if len(p.Conds) < 2 {
		return false
	}
	last := p.Conds[len(p.Conds)-1]
	if last.Expr == nil || hasCall(last.Expr) {
		return false
	}
	ls := types.ExprString(last.Expr)
	for _, c := range p.Conds[:len(p.Conds)-1] {
		if c.Expr == nil {
			continue
		}
		if types.ExprString(c.Expr) == ls && c.Taken != last.Taken && sameObjects(pe.info, c.Expr, last.Expr) {
			return true
		}
	}
	return false
}

func hasCall(e ast.Expr) bool {
	found := false
	ast.Inspect(e, func(n ast.Node) bool {
		if _, ok := n.(*ast.CallExpr); ok {
			found = true
		}
		return !found
	})
	return found
}

func sameObjects(info *types.Info, a, b ast.Expr) bool {
	var ia, ib []types.Object
	ast.Inspect(a, func(n ast.Node) bool {
		if id, ok := n.(*ast.Ident); ok {
			ia = append(ia, info.ObjectOf(id))
		}
		return true
	})
	ast.Inspect(b, func(n ast.Node) bool {
		if id, ok := n.(*ast.Ident); ok {
			ib = append(ib, info.ObjectOf(id))
		}
		return true
	})
	if len(ia) != len(ib) {
		return false
	}
	for i := range ia {
		if ia[i] != ib[i] {
			return false
		}
	}
	return true
}

// inspectNoFuncLit walks n without descending into function literals.
func inspectNoFuncLit(n ast.Node, f func(ast.Node) bool) {
	ast.Inspect(n, func(m ast.Node) bool {
		if m == nil {
			return false
		}
		if _, ok := m.(*ast.FuncLit); ok && m != n {
			return false
		}
		return f(m)
	})
}

// calleeObj resolves the called function/method object of a call expression.
func calleeObj(info *types.Info, call *ast.CallExpr) types.Object {
	fun := ast.Unparen(call.Fun)
	switch f := fun.(type) {
	case *ast.Ident:
		return info.Uses[f]
	case *ast.SelectorExpr:
		if sel, ok := info.Selections[f]; ok {
			return sel.Obj()
		}
		return info.Uses[f.Sel]
	case *ast.IndexExpr: // generic instantiation f[T](...)
		if id, ok := f.X.(*ast.Ident); ok {
			return info.Uses[id]
		}
		if se, ok := f.X.(*ast.SelectorExpr); ok {
			return info.Uses[se.Sel]
		}
	case *ast.IndexListExpr:
		if id, ok := f.X.(*ast.Ident); ok {
			return info.Uses[id]
		}
	}
	return nil
}

// callsIn lists the call expressions inside n (not inside nested func literals), in source order.
func callsIn(n ast.Node) []*ast.CallExpr {
	var out []*ast.CallExpr
	inspectNoFuncLit(n, func(m ast.Node) bool {
		if c, ok := m.(*ast.CallExpr); ok {
			out = append(out, c)
		}
		return true
	})
	return out
}
