package main

// C07 — Get returns exactly the installed entries, payload-faithful, correctly filtered.

import (
	"fmt"
	"go/ast"
	"go/types"
	"sort"
	"strings"
)

func init() { propRules["C07"] = rulesC07 }

func rulesC07(c *Ctx) {
	c.Decided = append(c.Decided,
		"R7.1 filter ↔ table ↔ converter ↔ message kind: GetRIB has one block per entry kind, guarded by that kind's AFTType, ranging over that kind's table, converting with that kind's Concrete*Proto and wrapping in that kind's AFTEntry oneof; the ALL rewrite lists exactly the five kinds; doGet accepts exactly ALL + the five and rejects the rest",
		"R7.2 every emitted entry is tagged with the holder's own network-instance name",
		"R7.3 the path prefix each Concrete*Proto hands to the schema→proto conversion equals the schema path of the table whose element type is the function's parameter (writer's and reader's tables agree); the key of the result is the entry's own key",
		"R7.4 scope: a named instance → that holder only; all → KnownNetworkInstances(); an unknown instance is an error; every message produced is forwarded to the stream",
		"R7.5 rebuilding from responses covers all five kinds, each appended to its own table of its own network instance",
		"R7.7 (shared with C01/C02) a replace deletes and merges the key inside the install helper's single exclusive section, and a held operation is retried under its own network instance — otherwise Get misses an installed key for a moment, or reports it under another instance",
		"R7.6 the walk is a snapshot of the instance: every read of the installed tables on the Get path holds the instance's lock (shared with C11) — a Get overlapping a replace otherwise misses an entry that was installed throughout")
	c.NotDec = append(c.NotDec, "field-for-field payload fidelity through proto → paths → ygot → gNMI → proto: the conversion is reflective third-party code (protomap, ytypes) with no source-level shape in this repository; the known loss of pop-top-label happens inside it", "Get(ALL) = disjoint union on concrete RIBs (follows from R7.1 structurally)")
	ruleGetRIBBlocks(c)
	ruleConcreteProtoPaths(c)
	ruleWireFieldRoundTrip(c)
	ruleDoGetScope(c)
	ruleDoGetGuards(c)
	ruleGetForwards(c)
	ruleOneofSwitches(c, []string{"rib"})
	ruleFromGetResponses(c)
	// R7.6 the walk is a snapshot: the tables are read under the instance's lock
	ruleLockDiscipline(c, lockSel{classes: []string{"RIBHolder.mu"}, pkgs: []string{"server", "rib"}, pairing: true})
	// R7.7 what Get reads is what was acknowledged: a replace removes and merges inside one exclusive section
	// (no window in which an installed key is absent), and a held operation is installed under the instance it was sent to
	ribFamily(c, famSel{mergeTotal: true, noTrace: true}) // … and an acknowledged operation was really written (no "already installed" shortcut that keeps stale fields)
	ruleRetryAfterInstall(c)
	ruleExplicitReplace(c) // an installed entry is only removed by the operation that replaces or deletes it: an explicit replace touches nothing before the gate has answered (shared with C01)
	ruleCounterCallers(c)  // a RIB rebuilt from Get responses is built by merging the entries only (shared with C03)
}

// concreteOf: the Concrete*Proto function whose parameter is *aft.Afts_<Struct>
func concreteOf(c *Ctx, k *Kind) *FuncInfo {
	for _, fi := range c.P.AllFuncs("rib") {
		if !strings.HasPrefix(fi.Obj.Name(), "Concrete") {
			continue
		}
		sig := fi.Obj.Type().(*types.Signature)
		if sig.Params().Len() == 1 && isNamed(sig.Params().At(0).Type(), aftPath, "Afts_"+k.Struct) {
			return fi
		}
	}
	return nil
}

func ruleGetRIBBlocks(c *Ctx) {
	const rule = "GET-BLOCKS"
	fi := c.need("rib", "RIBHolder", "GetRIB")
	ks := c.kindsOK()
	if fi == nil || ks == nil {
		return
	}
	info := fi.Pkg.TypesInfo
	recv := recvObj(info, fi.Decl)
	filter := paramObjs(info, fi.Decl)[0]
	seen := map[string]bool{}
	for _, st := range fi.Decl.Body.List {
		ifs, ok := st.(*ast.IfStmt)
		if !ok {
			continue
		}
		// guard: filter[spb.AFTType_X]
		ie, ok := ast.Unparen(ifs.Cond).(*ast.IndexExpr)
		if !ok || objOfIdent(info, ie.X) != filter {
			continue
		}
		guard := constName(info, ie.Index)
		if guard == "AFTType_ALL" {
			// the rewrite: filter = map{five kinds: true}
			var listed []string
			ast.Inspect(ifs.Body, func(n ast.Node) bool {
				if kv, ok := n.(*ast.KeyValueExpr); ok {
					if cn := constName(info, kv.Key); strings.HasPrefix(cn, "AFTType_") {
						if b, isB := boolConst(info, kv.Value); isB && b {
							listed = append(listed, cn)
						}
					}
				}
				return true
			})
			sort.Strings(listed)
			var want []string
			for _, k := range ks {
				want = append(want, k.AFTType)
			}
			sort.Strings(want)
			c.Sites++
			c.check(strings.Join(listed, ",") == strings.Join(want, ","), rule, fi.Name, "ALL is rewritten to exactly the five kinds", c.P.pos(ifs.Pos()), strings.Join(listed, ","), fmt.Sprintf("the ALL filter is rewritten to %v, want %v", listed, want))
			seen["ALL"] = true
			continue
		}
		var k *Kind
		for _, kk := range ks {
			if kk.AFTType == guard {
				k = kk
			}
		}
		if k == nil {
			continue
		}
		seen[k.Table] = true
		c.Sites++
		bad := ""
		// the range inside
		var rs *ast.RangeStmt
		for _, s2 := range ifs.Body.List {
			if r, ok := s2.(*ast.RangeStmt); ok {
				rs = r
			}
		}
		if rs == nil {
			// the loop may sit in a helper spliced into the block: the only loop over a table of the holder
			nLoops := 0
			inspectNoFuncLit(ifs.Body, func(n ast.Node) bool {
				if r, ok := n.(*ast.RangeStmt); ok && tableOfExpr(info, r.X) != "" && rootedAtHolderR(info, r.X) {
					rs = r
					nLoops++
				}
				return true
			})
			if nLoops != 1 {
				rs = nil
			}
		}
		if rs == nil {
			c.fail(rule, fi.Name, "block "+guard, c.P.pos(ifs.Pos()), "no loop over a table inside the block")
			continue
		}
		if t := tableOfExpr(info, rs.X); t != k.Table || !rootedAtHolderR(info, rs.X) {
			bad = fmt.Sprintf("the block guarded by %s ranges over table %q, want %q of the holder", guard, t, k.Table)
		}
		ev := objOfIdent(info, rs.Value)
		conv := concreteOf(c, k)
		// conversion of the ranged entry with this kind's converter
		var pvar types.Object
		convOK := false
		ast.Inspect(rs.Body, func(n ast.Node) bool {
			as, ok := n.(*ast.AssignStmt)
			if !ok || len(as.Rhs) != 1 {
				return true
			}
			if call, ok := ast.Unparen(as.Rhs[0]).(*ast.CallExpr); ok && conv != nil && calleeObj(info, call) == conv.Obj && len(call.Args) == 1 && objOfIdent(info, call.Args[0]) == ev {
				convOK = true
				pvar = objOfIdent(info, as.Lhs[0])
			}
			return true
		})
		if !convOK {
			bad = "the ranged entry is not converted with the converter of its own kind"
		}
		// the emitted message
		emitted := 0
		for _, cl := range litsOfType(info, rs.Body, spbPath, "AFTEntry") {
			emitted++
			f := compositeFields(cl)
			if o, p := selectorPath(info, f["NetworkInstance"]); frameArgRoot(info, fi.Decl, o) != recv || strings.Join(p, ".") != "name" {
				bad = "the emitted entry is not tagged with the holder's own network-instance name"
			}
			el, ok := unAddr(f["Entry"]).(*ast.CompositeLit)
			if !ok || !isNamed(info.Types[el].Type, spbPath, k.EntryOneof) {
				bad = "the emitted entry is not wrapped as " + k.EntryOneof
			} else if objOfIdent(info, compositeFields(el)[k.OneofField]) != pvar || pvar == nil {
				bad = "the emitted payload is not the converted entry"
			}
		}
		if emitted != 1 {
			bad = fmt.Sprintf("%d AFTEntry literals in the block, want 1", emitted)
		}
		// exactly one send per entry on the paths that do not stop or fail
		c.check(bad == "", rule, fi.Name, "block "+guard, c.P.pos(ifs.Pos()), fmt.Sprintf("%s ↔ table %s ↔ %s ↔ %s, tagged with the holder's name", guard, k.Table, conv.Obj.Name(), k.EntryOneof), bad)
	}
	for _, k := range ks {
		if !seen[k.Table] {
			c.fail(rule, fi.Name, "block "+k.AFTType, c.P.pos(fi.Decl.Pos()), "GetRIB has no block emitting the "+k.Table+" table under filter "+k.AFTType)
		}
	}
	if !seen["ALL"] {
		c.fail(rule, fi.Name, "ALL rewrite", c.P.pos(fi.Decl.Pos()), "GetRIB does not expand the ALL filter")
	}
}

func ruleConcreteProtoPaths(c *Ctx) {
	const rule = "SCHEMA-PATH"
	ks := c.kindsOK()
	if ks == nil {
		return
	}
	keyField := map[string]string{"Ipv4Entry": "Prefix", "Ipv6Entry": "Prefix", "NextHopGroup": "Id", "NextHop": "Index", "LabelEntry": "Label"}
	for _, k := range ks {
		fi := concreteOf(c, k)
		if fi == nil {
			c.vanished(rule, "rib", "converter for "+k.Table, "no Concrete*Proto function takes *aft.Afts_"+k.Struct)
			continue
		}
		c.Analysed[fi.Name] = true
		info := fi.Pkg.TypesInfo
		e := paramObjs(info, fi.Decl)[0]
		// the path literal handed to protoFromGoStruct
		var elems []string
		var msgVar types.Object
		for _, call := range callsIn(fi.Decl.Body) {
			if !isFunc(calleeObj(info, call), ribPkg, "protoFromGoStruct") || len(call.Args) != 3 {
				continue
			}
			if objOfIdent(info, call.Args[0]) != e {
				elems = []string{"<not the entry>"}
				continue
			}
			// the path literal, written in place or built by a simple constructor from constant arguments
			pathExpr, pinfo := ast.Expr(call.Args[1]), info
			arg := map[types.Object]ast.Expr{}
			if hc, ok := ast.Unparen(resolveLocal(info, fi.Decl, pathExpr)).(*ast.CallExpr); ok {
				if hfi, ret := simpleHelper(info, hc); hfi != nil {
					for i, p := range paramObjs(hfi.Pkg.TypesInfo, hfi.Decl) {
						if i < len(hc.Args) && p != nil {
							arg[p] = hc.Args[i]
						}
					}
					pathExpr, pinfo = ret, hfi.Pkg.TypesInfo
				}
			}
			ast.Inspect(pathExpr, func(n ast.Node) bool {
				if kv, ok := n.(*ast.KeyValueExpr); ok {
					if id, ok := kv.Key.(*ast.Ident); ok && id.Name == "Name" {
						v, vi := kv.Value, pinfo
						if pid, ok := ast.Unparen(v).(*ast.Ident); ok {
							if a, ok := arg[pinfo.ObjectOf(pid)]; ok {
								v, vi = a, info
							}
						}
						if tv, ok := vi.Types[v]; ok && tv.Value != nil {
							elems = append(elems, strings.Trim(tv.Value.ExactString(), `"`))
						} else {
							elems = append(elems, "<not a constant>")
						}
					}
				}
				return true
			})
			msgVar = objOfIdent(info, call.Args[2])
		}
		want := "afts/" + k.SchemaPath
		c.Sites++
		bad := ""
		if strings.Join(elems, "/") != want {
			bad = fmt.Sprintf("the prefix stripped from the entry's paths is %q, the schema path of table %s is %q: the conversion would drop every field", strings.Join(elems, "/"), k.Table, want)
		}
		// result: key from the entry, payload = the filled message
		okRes := false
		for _, cl := range litsOfType(info, fi.Decl.Body, aftpbPath, k.KeyMsg) {
			f := compositeFields(cl)
			if objOfIdent(info, f[k.PayloadFld]) == msgVar && msgVar != nil {
				okRes = true
			}
			if k.Table != "LabelEntry" {
				kf := keyField[k.Table]
				if o, p := selectorPath(info, f[kf]); o != e || strings.Join(p, ".") != kf {
					okRes = false
				}
			}
		}
		if !okRes && bad == "" {
			bad = "the returned key message does not carry (the entry's own key, the converted payload)"
		}
		c.check(bad == "", rule, fi.Name, "prefix path = schema path of "+k.Table, c.P.pos(fi.Decl.Pos()), want, bad)
	}
}

func ruleDoGetScope(c *Ctx) {
	const rule = "GET-SCOPE"
	fi := c.need("server", "Server", "doGet")
	if fi == nil {
		return
	}
	info := fi.Pkg.TypesInfo
	req := paramName(fi, 0)
	ev := func(n ast.Node) []Event {
		var out []Event
		for _, call := range callsIn(n) {
			obj := calleeObj(info, call)
			switch {
			case isMethod(obj, ribPkg, "RIB", "KnownNetworkInstances"):
				out = append(out, Event{Kind: "all-instances", Node: call})
			case isMethod(obj, ribPkg, "RIBHolder", "GetRIB"):
				out = append(out, Event{Kind: "emit", Node: call})
			case isMethod(obj, ribPkg, "RIB", "NetworkInstanceRIB"):
				d := &addEvData{call: call}
				if as := assignedFromCall(info, n, call); len(as) == 2 {
					d.ok, d.mid = as[1], as[0]
				}
				out = append(out, Event{Kind: "lookup", Node: call, Data: d})
			}
		}
		return out
	}
	pe := &pathEnum{info: info, ev: ev, cap: pathCap, fd: fi.Decl}
	paths, _ := pe.run(fi.Decl.Body.List)
	c.Sites += len(paths)
	if pe.overflow {
		c.undecided(rule, fi.Name, "body", c.P.pos(fi.Decl.Pos()), "path enumeration incomplete")
		return
	}
	bad := ""
	nEmit := 0
	aAll := "is:GetRequest_All|" + req + ".NetworkInstance"
	aName := "is:GetRequest_Name|" + req + ".NetworkInstance"
	for _, p := range paths {
		isAll := p.Entails(&FLit{aAll, 2, 2})
		isName := p.Entails(&FLit{aName, 2, 2})
		if isAll && !p.has("all-instances") {
			bad = "a Get for all instances does not enumerate KnownNetworkInstances(): " + p.describe(c.P)
		}
		if isName && p.has("all-instances") {
			bad = "a Get naming one instance enumerates all instances"
		}
		for i, e := range p.Events {
			if e.Kind != "emit" {
				continue
			}
			nEmit++
			li := lastIdxBefore(p, "lookup", i)
			if li < 0 {
				bad = "entries are emitted from a holder that was not looked up by instance name"
				continue
			}
			d := p.Events[li].Data.(*addEvData)
			call := e.Node.(*ast.CallExpr)
			se := ast.Unparen(call.Fun).(*ast.SelectorExpr)
			if d.ok == nil || factsAfter(info, p, li, i).Obj(d.ok) != +1 {
				bad = "entries are emitted although the instance lookup did not succeed: " + p.describe(c.P)
			}
			if objOfIdent(info, se.X) != d.mid {
				bad = "entries are emitted from a holder other than the one looked up"
			}
			// arguments: the filter built from the request, the message channel, the stop channel
			ps := paramObjs(info, fi.Decl)
			if len(call.Args) != 3 || objOfIdent(info, call.Args[1]) != ps[1] || objOfIdent(info, call.Args[2]) != ps[3] {
				bad = "GetRIB is not handed (filter, message channel, stop channel)"
			}
		}
	}
	if nEmit == 0 {
		c.vanished(rule, fi.Name, "emission", "doGet never calls GetRIB")
		return
	}
	// inside the loop over the selected instances: an instance that was found is walked — no path of one
	// iteration leaves it (continue / falling through) without handing it to GetRIB; an iteration may only
	// end early by returning (after reporting an error)
	inspectNoFuncLit(fi.Decl.Body, func(n ast.Node) bool {
		rs, ok := n.(*ast.RangeStmt)
		if !ok {
			return true
		}
		has := false
		for _, call := range callsIn(rs.Body) {
			if isMethod(calleeObj(info, call), ribPkg, "RIB", "NetworkInstanceRIB") {
				has = true
			}
		}
		if !has {
			return true
		}
		ip, ipe := enumPaths(info, rs.Body.List, ev)
		c.Sites += len(ip)
		if ipe.overflow {
			bad = "path enumeration of the instance loop incomplete"
		}
		for _, p := range ip {
			li := idx(p, "lookup")
			if li < 0 || p.End == "return" || p.End == "panic" {
				continue
			}
			d := p.Events[li].Data.(*addEvData)
			if d.ok != nil && factsAfter(info, p, li, len(p.Events)).Obj(d.ok) == +1 && !p.has("emit") {
				bad = "an instance that was found is left without being walked (its entries are missing from the stream, so Get(ALL) is no longer the union of the per-table Gets): " + p.describe(c.P)
			}
		}
		return false
	})
	c.check(bad == "", rule, fi.Name, "named → that instance; all → KnownNetworkInstances(); unknown instance → error, no emission", c.P.pos(fi.Decl.Pos()), fmt.Sprintf("%d paths", len(paths)), bad)
	// the single name is the request's name: every assignment to the ranged
	// list is the empty list, the request's name (appended or as a one-element
	// literal), or KnownNetworkInstances().
	okName := false
	var listObj types.Object
	ast.Inspect(fi.Decl.Body, func(n ast.Node) bool {
		if rs, ok := n.(*ast.RangeStmt); ok {
			for _, call := range callsIn(rs.Body) {
				if f, ok := calleeObj(info, call).(*types.Func); ok && f.Name() == "NetworkInstanceRIB" {
					listObj = objOfIdent(info, rs.X)
				}
			}
		}
		return true
	})
	isReqName := func(e ast.Expr) bool {
		_, p := selectorPath(info, e)
		return strings.Join(p, ".") == "Name"
	}
	strayList := ""
	// the list and the locals of spliced-in helpers whose value is handed back into it
	lists := map[types.Object]bool{}
	if listObj != nil {
		lists[listObj] = true
		for _, a := range frameReturnAliases(info, listObj) {
			if _, isVar := a.(*types.Var); isVar {
				lists[a] = true
			}
		}
	}
	ast.Inspect(fi.Decl.Body, func(n ast.Node) bool {
		as, ok := n.(*ast.AssignStmt)
		if !ok || len(as.Rhs) != 1 || len(as.Lhs) != 1 || listObj == nil || !lists[objOfIdent(info, as.Lhs[0])] {
			return true
		}
		switch r := ast.Unparen(as.Rhs[0]).(type) {
		case *ast.CallExpr:
			if id, ok := r.Fun.(*ast.Ident); ok && id.Name == "append" && len(r.Args) == 2 && lists[objOfIdent(info, r.Args[0])] && isReqName(r.Args[1]) {
				okName = true
				return true
			}
			if f, ok := calleeObj(info, r).(*types.Func); ok && f.Name() == "KnownNetworkInstances" {
				return true
			}
		case *ast.CompositeLit:
			if len(r.Elts) == 0 {
				return true
			}
			if len(r.Elts) == 1 && isReqName(r.Elts[0]) {
				okName = true
				return true
			}
		}
		strayList = types.ExprString(as.Rhs[0])
		return true
	})
	if strayList != "" {
		okName = false
	}
	c.check(okName, rule, fi.Name, "the named instance is the request's name", c.P.pos(fi.Decl.Pos()), "append(list, request.Name)", "the instance list of a named Get is not built from the request's name")
}

// Server.Get forwards every produced message
func ruleGetForwards(c *Ctx) {
	ruleStreamForwards(c, "GET-FORWARDS", "Get", "GetResponse")
}

// ruleStreamForwards: in the RPC handler (or a goroutine it starts), every
// message received from the producer channel is handed to stream.Send on every
// path through the receiving case — none is filtered, none is sent twice.
func ruleStreamForwards(c *Ctx, rule, handler, elem string) {
	fi := c.need("server", "Server", handler)
	if fi == nil {
		return
	}
	type scope struct {
		body *ast.BlockStmt
		fi   *FuncInfo
	}
	scopes := []scope{{fi.Decl.Body, fi}}
	for _, gb := range goBodies(fi) {
		if gb.Lit == nil {
			scopes = append(scopes, scope{gb.Body, gb.FI})
		}
	}
	n := 0
	bad := ""
	seen := map[*ast.CommClause]bool{}
	for _, sc := range scopes {
		info := sc.fi.Pkg.TypesInfo
		ast.Inspect(sc.body, func(nd ast.Node) bool {
			cc, isCC := nd.(*ast.CommClause)
			if !isCC || cc.Comm == nil || seen[cc] {
				return true
			}
			as, isAs := cc.Comm.(*ast.AssignStmt)
			if !isAs || len(as.Lhs) != 1 || len(as.Rhs) != 1 {
				return true
			}
			ue, isU := ast.Unparen(as.Rhs[0]).(*ast.UnaryExpr)
			if !isU {
				return true
			}
			tv, ok2 := info.Types[ue.X]
			if !ok2 {
				return true
			}
			ch, isCh := tv.Type.Underlying().(*types.Chan)
			if !isCh || !isNamed(ch.Elem(), spbPath, elem) {
				return true
			}
			seen[cc] = true
			n++
			msg := objOfIdent(info, as.Lhs[0])
			ev := func(x ast.Node) []Event {
				var out []Event
				for _, call := range callsIn(x) {
					if se, isSe := ast.Unparen(call.Fun).(*ast.SelectorExpr); isSe && se.Sel.Name == "Send" && len(call.Args) == 1 {
						if objOfIdent(info, call.Args[0]) == msg && msg != nil {
							out = append(out, Event{Kind: "send", Node: call})
						} else {
							out = append(out, Event{Kind: "send-other", Node: call})
						}
					}
				}
				return out
			}
			paths, pe := enumPaths(info, cc.Body, ev)
			c.Sites += len(paths)
			if pe.overflow || len(paths) == 0 {
				bad = "cannot enumerate the paths of the receiving case"
				return true
			}
			for _, p := range paths {
				switch {
				case p.End == "panic":
				case p.has("send-other"):
					bad = "something other than the received message is sent on the stream: " + p.describe(c.P)
				case p.count("send") != 1:
					bad = fmt.Sprintf("a received %s is sent %d times on a path (a message is dropped or duplicated): %s", elem, p.count("send"), p.describe(c.P))
				}
			}
			return true
		})
	}
	if n == 0 {
		c.vanished(rule, fi.Name, "receiving case", "no select case receiving a "+elem+" from the producer")
		return
	}
	c.check(bad == "", rule, fi.Name, "every message received from the producer is sent on the stream", c.P.pos(fi.Decl.Pos()), fmt.Sprintf("%d receiving case(s), every path sends the received message exactly once", n), bad)
}

// R7.5
func ruleFromGetResponses(c *Ctx) {
	const rule = "REBUILD-FROM-GET"
	fi := c.need("rib", "", "FromGetResponses")
	ks := c.kindsOK()
	if fi == nil || ks == nil {
		return
	}
	info := fi.Pkg.TypesInfo
	var ts *ast.TypeSwitchStmt
	ast.Inspect(fi.Decl.Body, func(n ast.Node) bool {
		if t, ok := n.(*ast.TypeSwitchStmt); ok && ts == nil {
			ts = t
		}
		return true
	})
	if ts == nil {
		c.vanished(rule, fi.Name, "type switch", "no type switch over the response entries")
		return
	}
	tvar := ""
	if as, ok := ts.Assign.(*ast.AssignStmt); ok {
		tvar = as.Lhs[0].(*ast.Ident).Name
	}
	bad := ""
	n := 0
	for _, cc := range ts.Body.List {
		cl := cc.(*ast.CaseClause)
		if len(cl.List) != 1 {
			continue
		}
		tv := info.Types[cl.List[0]]
		for _, k := range ks {
			if !isNamed(tv.Type, spbPath, k.EntryOneof) {
				continue
			}
			n++
			c.Sites++
			okArm := false
			for _, st := range cl.Body {
				as, ok := st.(*ast.AssignStmt)
				if !ok || len(as.Lhs) != 1 || len(as.Rhs) != 1 {
					continue
				}
				call, ok := ast.Unparen(as.Rhs[0]).(*ast.CallExpr)
				if !ok || len(call.Args) != 2 {
					continue
				}
				lse, ok1 := ast.Unparen(as.Lhs[0]).(*ast.SelectorExpr)
				ase, ok2 := ast.Unparen(call.Args[0]).(*ast.SelectorExpr)
				if ok1 && ok2 && lse.Sel.Name == k.Table && ase.Sel.Name == k.Table && types.ExprString(lse.X) == types.ExprString(ase.X) {
					if o, p := selectorPath(info, call.Args[1]); o != nil && o.Name() == tvar && strings.Join(p, ".") == k.OneofField {
						okArm = true
					}
				}
			}
			if !okArm {
				bad = "the " + k.EntryOneof + " arm does not append the entry to table " + k.Table
			}
		}
	}
	c.check(bad == "" && n == 5, rule, fi.Name, "each kind is appended to its own table", c.P.pos(ts.Pos()), "5 arms", bad)
	// keyed by the entry's network instance
	okNI := false
	ast.Inspect(fi.Decl.Body, func(m ast.Node) bool {
		if as, ok := m.(*ast.AssignStmt); ok && len(as.Rhs) == 1 {
			if _, p := selectorPath(info, as.Rhs[0]); strings.Join(p, ".") == "NetworkInstance" {
				okNI = true
			}
		}
		return true
	})
	c.check(okNI, rule, fi.Name, "entries are grouped by their own network instance", c.P.pos(fi.Decl.Pos()), "ni := e.GetNetworkInstance()", "rebuilt entries are not grouped by the network instance they are tagged with")
}
