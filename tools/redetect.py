#!/usr/bin/env python3
"""Re-runs every property's quick check against each stored seeded change (applied to /repo, then undone) and updates meta.json."""
import json, os, shutil, subprocess, sys, glob
env = dict(os.environ, PATH="/opt/veriftools/go1.26.8/bin:" + os.environ["PATH"], GOTOOLCHAIN="local", GOFLAGS="-mod=mod", GOPROXY="off", GOSUMDB="off")
only = sys.argv[1:]
rows = []
for d in sorted(glob.glob("/verif/seeded/*/")):
    sid = os.path.basename(d.rstrip("/"))
    if only and sid not in only: continue
    meta = json.load(open(d + "meta.json"))
    st = subprocess.run(["git", "-C", "/repo", "status", "--porcelain"], capture_output=True, text=True).stdout.strip()
    assert st == "", "repo not clean: " + st
    subprocess.check_call(["git", "-C", "/repo", "apply", d + "patch.diff"])
    detected = {}
    try:
        tmpv = "/tmp/seedev_" + sid
        os.makedirs(tmpv, exist_ok=True)
        shutil.copy("/verif/known_findings.json", tmpv)
        e2 = dict(env, GRIBILINT_VERIF=tmpv)
        for p in [f"C{i:02d}" for i in range(1, 20)]:
            r = subprocess.run(["/verif/bin/gribilint", p, "quick"], env=e2, capture_output=True, text=True)
            if r.returncode != 0:
                lines = [l for l in r.stdout.splitlines() if " VIOLATED " in l or " UNDECIDED " in l or " VANISHED " in l]
                detected[p] = [l[:300] for l in lines[:3]] or [r.stderr[:300]]
        shutil.rmtree(tmpv, ignore_errors=True)
    finally:
        subprocess.check_call(["git", "-C", "/repo", "checkout", "--", "."])
    meta["detected_by"] = detected
    meta["caught_by_own_property"] = meta["property"] in detected
    json.dump(meta, open(d + "meta.json", "w"), indent=1)
    rows.append((sid, meta["property"], meta["caught_by_own_property"], sorted(detected)))
for r in rows: print("%-45s %s own=%s all=%s" % r)
