package main

// C18 — fluent builders emit exactly what was set; unique ids; current election id.

import (
	"fmt"
	"go/ast"
	"go/token"
	"go/types"
	"regexp"
	"sort"
	"strings"

	"golang.org/x/tools/go/ssa"
)

func init() { propRules["C18"] = rulesC18 }

const fluentPkg = modPath + "/fluent"

// storeSig lists the struct fields a function stores to, with the provenance
// of the stored value: "Struct.Field←p:<param>" / "←const" / "←lit:<Struct>" / "←?".
func storeSig(fn *ssa.Function, depth int) []string {
	out := map[string]bool{}
	// parameters of helpers reached through static calls are named by the caller's argument
	paramSrc := map[*ssa.Parameter]string{}
	var valueSrc func(v ssa.Value, d int) string
	valueSrc = func(v ssa.Value, d int) string {
		if d > 6 {
			return "?"
		}
		switch x := v.(type) {
		case *ssa.Parameter:
			if s, ok := paramSrc[x]; ok {
				return s
			}
			for i, p := range x.Parent().Params {
				if p == x {
					return fmt.Sprintf("p%d", i)
				}
			}
			return "p?"
		case *ssa.Const:
			return "const"
		case *ssa.Convert:
			return valueSrc(x.X, d+1)
		case *ssa.ChangeType:
			return valueSrc(x.X, d+1)
		case *ssa.MakeInterface:
			return valueSrc(x.X, d+1)
		case *ssa.Alloc:
			// a literal: name it by its type and the sources of its fields
			if st, ok := x.Type().Underlying().(*types.Pointer).Elem().Underlying().(*types.Struct); ok {
				name := typeName(x.Type())
				var fs []string
				for _, r := range *x.Referrers() {
					fa, ok := r.(*ssa.FieldAddr)
					if !ok {
						continue
					}
					for _, r2 := range *fa.Referrers() {
						if s, ok := r2.(*ssa.Store); ok && s.Addr == fa {
							fs = append(fs, st.Field(fa.Field).Name()+"="+valueSrc(s.Val, d+1))
						}
					}
				}
				sort.Strings(fs)
				return "lit:" + name + "{" + strings.Join(fs, ",") + "}"
			}
			// an array backing a variadic / slice literal: list its elements
			if _, ok := x.Type().Underlying().(*types.Pointer).Elem().Underlying().(*types.Array); ok {
				var es []string
				for _, r := range *x.Referrers() {
					if ia, ok := r.(*ssa.IndexAddr); ok {
						for _, r2 := range *ia.Referrers() {
							if s, ok := r2.(*ssa.Store); ok && s.Addr == ia {
								es = append(es, valueSrc(s.Val, d+1))
							}
						}
					}
				}
				return "[" + strings.Join(es, ",") + "]"
			}
			return "alloc"
		case *ssa.Call:
			// a small constructor helper of the package (return &T{…} built from its parameters) is described by what it returns
			if sc := x.Call.StaticCallee(); sc != nil && sc.Pkg == fn.Pkg && sc.Blocks != nil && len(sc.Blocks) == 1 && d < 4 {
				var ret *ssa.Return
				for _, in := range sc.Blocks[0].Instrs {
					if r, ok := in.(*ssa.Return); ok {
						ret = r
					}
				}
				if ret != nil && len(ret.Results) == 1 {
					if _, isAlloc := ret.Results[0].(*ssa.Alloc); isAlloc {
						for i, prm := range sc.Params {
							if i < len(x.Call.Args) {
								paramSrc[prm] = valueSrc(x.Call.Args[i], d+1)
							}
						}
						return valueSrc(ret.Results[0], d+1)
					}
				}
			}
			// a value helper of the package with a single return (e.g. "the next index of the list") is described by
			// what it returns, so that the helper and the same expression written in place read the same
			if sc := x.Call.StaticCallee(); sc != nil && sc.Pkg == fn.Pkg && sc.Blocks != nil && d < 4 {
				var rets []*ssa.Return
				for _, b := range sc.Blocks {
					for _, in := range b.Instrs {
						if r, ok := in.(*ssa.Return); ok {
							rets = append(rets, r)
						}
					}
				}
				if len(rets) == 1 && len(rets[0].Results) == 1 {
					switch rets[0].Results[0].(type) {
					case *ssa.BinOp, *ssa.Convert:
						for i, prm := range sc.Params {
							if i < len(x.Call.Args) {
								paramSrc[prm] = valueSrc(x.Call.Args[i], d+1)
							}
						}
						return valueSrc(rets[0].Results[0], d+1)
					}
				}
			}
			if cf := calleeFunc(x); cf != nil {
				if cf.Name() == "append" {
					return "append"
				}
				return "call:" + cf.Name()
			}
			if b, ok := x.Call.Value.(*ssa.Builtin); ok {
				if b.Name() == "append" {
					var parts []string
					for _, a := range x.Call.Args[1:] {
						parts = append(parts, valueSrc(a, d+1))
					}
					return "append(" + strings.Join(parts, ",") + ")"
				}
				if b.Name() == "len" && len(x.Call.Args) == 1 {
					return "len(" + valueSrc(x.Call.Args[0], d+1) + ")"
				}
				return "builtin:" + b.Name()
			}
			return "call"
		case *ssa.BinOp:
			return x.Op.String() + "(" + valueSrc(x.X, d+1) + "," + valueSrc(x.Y, d+1) + ")"
		case *ssa.Slice:
			return valueSrc(x.X, d+1)
		case *ssa.UnOp:
			if x.Op == token.MUL {
				if fa, ok := x.X.(*ssa.FieldAddr); ok {
					st := fa.X.Type().Underlying().(*types.Pointer).Elem().Underlying().(*types.Struct)
					return "load:" + typeName(fa.X.Type()) + "." + st.Field(fa.Field).Name()
				}
				if ia, ok := x.X.(*ssa.IndexAddr); ok {
					return "elem(" + valueSrc(ia.X, d+1) + ")"
				}
				if g, ok := x.X.(*ssa.Global); ok {
					return "global:" + g.Name()
				}
			}
			return "?"
		case *ssa.Lookup:
			return "lookup(" + valueSrc(x.X, d+1) + "[" + valueSrc(x.Index, d+1) + "])"
		case *ssa.Global:
			return "global:" + x.Name()
		case *ssa.Phi:
			var parts []string
			for _, e := range x.Edges {
				parts = append(parts, valueSrc(e, d+1))
			}
			sort.Strings(parts)
			return "phi(" + strings.Join(uniqStrings(parts), "|") + ")"
		case *ssa.Extract:
			return "extract"
		}
		return "?"
	}
	var visit func(f *ssa.Function, d int)
	visit = func(f *ssa.Function, d int) {
		for _, b := range f.Blocks {
			for _, in := range b.Instrs {
				switch x := in.(type) {
				case *ssa.Store:
					fa, ok := x.Addr.(*ssa.FieldAddr)
					if !ok {
						continue
					}
					// stores into literals being built are part of the literal's description
					if _, isAlloc := fa.X.(*ssa.Alloc); isAlloc {
						continue
					}
					st := fa.X.Type().Underlying().(*types.Pointer).Elem().Underlying().(*types.Struct)
					out[typeName(fa.X.Type())+"."+st.Field(fa.Field).Name()+"←"+valueSrc(x.Val, 0)] = true
				case *ssa.Call:
					if d > 0 {
						if sc := x.Call.StaticCallee(); sc != nil && sc.Pkg == fn.Pkg && sc.Blocks != nil && sc != f {
							for i, prm := range sc.Params {
								if i < len(x.Call.Args) {
									paramSrc[prm] = valueSrc(x.Call.Args[i], 1)
								}
							}
							visit(sc, d-1)
						}
					}
				}
			}
		}
	}
	visit(fn, depth)
	var res []string
	for k := range out {
		res = append(res, k)
	}
	sort.Strings(res)
	return res
}

func rulesC18(c *Ctx) {
	c.Decided = append(c.Decided,
		"R18.1 clone discipline: every OpProto/EntryProto places proto.Clone of the builder's protobuf (never the builder's own message) into the returned message, tagged with the builder's network instance (and election id for operations), wrapped in the oneof of the builder's kind",
		"R18.2 setters write what their name says: for every With*/Add* method of the builders the set of protobuf fields stored to, with the parameter each value comes from, equals the frozen row for that method; each returns its receiver",
		"R18.3 ids: entriesToModifyRequest's decision table per entry — explicit ids rejected before the counter moves, exactly one increment dominating the id assignment, the requested operation type set",
		"R18.4 stamping: the operation is stamped with the client's current election id ⇔ a connection is configured ∧ elected-primary mode ∧ the entry has none; WithInitialElectionID and UpdateElectionID both store the id they announce as the current one; AddEntry/ReplaceEntry/DeleteEntry request their own operation type and queue the result")
	c.NotDec = append(c.NotDec, "arbitrary programs over the builder language beyond these per-method facts", "aliasing between a next-hop builder and an encap-header builder added to it (before OpProto clones)")
	ruleCloneDiscipline(c)
	ruleSetterRows(c)
	ruleEntriesToModifyRequest(c)
	ruleElectionIDStores(c)
	ruleCurrentElectionIDWriters(c)
	ruleStateWriters(c, writersFluent)
	ruleModifyVerbs(c)
}

func ruleCloneDiscipline(c *Ctx) {
	const rule = "CLONE-DISCIPLINE"
	ks := c.kindsOK()
	if ks == nil {
		return
	}
	n := 0
	byBuilder := map[string]map[string]string{}
	for _, fi := range c.P.AllFuncs("fluent") {
		name := fi.Obj.Name()
		if (name != "OpProto" && name != "EntryProto") || fi.Decl.Recv == nil {
			continue
		}
		n++
		c.Sites++
		c.Analysed[fi.Name] = true
		info := fi.Pkg.TypesInfo
		recv := recvObj(info, fi.Decl)
		builder := recvTypeName(fi.Obj)
		msg := map[string]string{"OpProto": "AFTOperation", "EntryProto": "AFTEntry"}[name]
		bad := ""
		lits := litsOfType(info, fi.Decl.Body, spbPath, msg)
		if len(lits) != 1 {
			bad = fmt.Sprintf("%d %s literals, want 1", len(lits), msg)
		} else {
			f := compositeFields(lits[0])
			if o, p := selectorPath(info, f["NetworkInstance"]); o != recv || strings.Join(p, ".") != "ni" {
				bad = "NetworkInstance is not the builder's ni"
			}
			if name == "OpProto" {
				if o, p := selectorPath(info, f["ElectionId"]); o != recv || strings.Join(p, ".") != "electionID" {
					bad = "ElectionId is not the builder's electionID"
				}
				if f["Id"] != nil || f["Op"] != nil {
					bad = "OpProto must leave Id and Op to the caller"
				}
			}
			el, ok := unAddr(f["Entry"]).(*ast.CompositeLit)
			if !ok {
				bad = "Entry is not a oneof wrapper literal"
			} else {
				wrap := typeName(info.Types[el].Type)
				var k *Kind
				for _, kk := range ks {
					if wrap == kk.OpOneof || wrap == kk.EntryOneof {
						k = kk
					}
				}
				if k == nil {
					bad = "unknown oneof wrapper " + wrap
				} else {
					if byBuilder[builder] == nil {
						byBuilder[builder] = map[string]string{}
					}
					byBuilder[builder][name] = k.Table
					// payload: proto.Clone(recv.pb).(*aftpb.KeyMsg)
					ta, ok := ast.Unparen(compositeFields(el)[k.OneofField]).(*ast.TypeAssertExpr)
					okClone := false
					if ok {
						if call, ok := ast.Unparen(ta.X).(*ast.CallExpr); ok && isFunc(calleeObj(info, call), "google.golang.org/protobuf/proto", "Clone") && len(call.Args) == 1 {
							if o, p := selectorPath(info, call.Args[0]); o == recv && strings.Join(p, ".") == "pb" {
								okClone = true
							}
						}
					}
					if !okClone {
						bad = "the payload is not proto.Clone(builder.pb): later builder calls would alter the message already produced"
					}
				}
			}
		}
		c.check(bad == "", rule, fi.Name, "returns a clone of the builder's message with its instance"+map[string]string{"OpProto": " and election id", "EntryProto": ""}[name], c.P.pos(fi.Decl.Pos()), msg, bad)
	}
	c.floor(rule, "OpProto/EntryProto methods", n, 10)
	var bs []string
	for b := range byBuilder {
		bs = append(bs, b)
	}
	sort.Strings(bs)
	for _, b := range bs {
		m := byBuilder[b]
		c.check(m["OpProto"] == m["EntryProto"] && m["OpProto"] != "", rule, "fluent.("+b+")", "operation and entry forms agree on the kind", "-", m["OpProto"], fmt.Sprintf("builder %s produces an operation of kind %q but an entry of kind %q", b, m["OpProto"], m["EntryProto"]))
	}
}

// The frozen setter rows (DESIGN.md appendix A.3), confirmed by reading fluent.go.
// key: builder.method ; value: sorted store signature.
var setterRows = map[string][]string{
	"ipv4Entry.WithElectionID":                   {"ipv4Entry.electionID←lit:Uint128{High=p2,Low=p1}"},
	"ipv4Entry.WithMetadata":                     {"Afts_Ipv4Entry.EntryMetadata←lit:BytesValue{Value=p1}"},
	"ipv4Entry.WithNetworkInstance":              {"ipv4Entry.ni←p1"},
	"ipv4Entry.WithNextHopGroup":                 {"Afts_Ipv4Entry.NextHopGroup←lit:UintValue{Value=p1}"},
	"ipv4Entry.WithNextHopGroupNetworkInstance":  {"Afts_Ipv4Entry.NextHopGroupNetworkInstance←lit:StringValue{Value=p1}"},
	"ipv4Entry.WithPrefix":                       {"Afts_Ipv4EntryKey.Prefix←p1"},
	"ipv6Entry.WithElectionID":                   {"ipv6Entry.electionID←lit:Uint128{High=p2,Low=p1}"},
	"ipv6Entry.WithMetadata":                     {"Afts_Ipv6Entry.EntryMetadata←lit:BytesValue{Value=p1}"},
	"ipv6Entry.WithNetworkInstance":              {"ipv6Entry.ni←p1"},
	"ipv6Entry.WithNextHopGroup":                 {"Afts_Ipv6Entry.NextHopGroup←lit:UintValue{Value=p1}"},
	"ipv6Entry.WithNextHopGroupNetworkInstance":  {"Afts_Ipv6Entry.NextHopGroupNetworkInstance←lit:StringValue{Value=p1}"},
	"ipv6Entry.WithPrefix":                       {"Afts_Ipv6EntryKey.Prefix←p1"},
	"labelEntry.WithLabel":                       {"Afts_LabelEntryKey.Label←lit:Afts_LabelEntryKey_LabelUint64{LabelUint64=p1}"},
	"labelEntry.WithNetworkInstance":             {"labelEntry.ni←p1"},
	"labelEntry.WithNextHopGroup":                {"Afts_LabelEntry.NextHopGroup←lit:UintValue{Value=p1}"},
	"labelEntry.WithNextHopGroupNetworkInstance": {"Afts_LabelEntry.NextHopGroupNetworkInstance←lit:StringValue{Value=p1}"},
	"labelEntry.WithPoppedLabelStack":            {"Afts_LabelEntry.PoppedMplsLabelStack←[]", "Afts_LabelEntry.PoppedMplsLabelStack←append([lit:Afts_LabelEntry_PoppedMplsLabelStackUnion{PoppedMplsLabelStackUint64=elem(p1)}])"},
	"nextHopEntry.AddEncapHeader":                {"Afts_NextHop.EncapHeader←append([lit:Afts_NextHop_EncapHeaderKey{EncapHeader=call:EncapProto,Index=call:nextEncapHeaderKeyIndex}])", "Afts_NextHopKey.NextHop←lit:Afts_NextHop{}"},
	"nextHopEntry.WithDecapsulateHeader":         {"Afts_NextHop.DecapsulateHeader←lookup(global:encapMap[p1])", "Afts_NextHopKey.NextHop←lit:Afts_NextHop{}"},
	"nextHopEntry.WithElectionID":                {"nextHopEntry.electionID←lit:Uint128{High=p2,Low=p1}"},
	"nextHopEntry.WithEncapsulateHeader":         {"Afts_NextHop.EncapsulateHeader←lookup(global:encapMap[p1])", "Afts_NextHopKey.NextHop←lit:Afts_NextHop{}"},
	"nextHopEntry.WithIPAddress":                 {"Afts_NextHop.IpAddress←lit:StringValue{Value=p1}", "Afts_NextHopKey.NextHop←lit:Afts_NextHop{}"},
	"nextHopEntry.WithIPinIP":                    {"Afts_NextHop.IpInIp←lit:Afts_NextHop_IpInIp{DstIp=lit:StringValue{Value=p2},SrcIp=lit:StringValue{Value=p1}}", "Afts_NextHopKey.NextHop←lit:Afts_NextHop{}"},
	"nextHopEntry.WithIndex":                     {"Afts_NextHopKey.Index←p1"},
	"nextHopEntry.WithInterfaceRef":              {"Afts_NextHop.InterfaceRef←lit:Afts_NextHop_InterfaceRef{Interface=lit:StringValue{Value=p1}}", "Afts_NextHopKey.NextHop←lit:Afts_NextHop{}"},
	"nextHopEntry.WithMacAddress":                {"Afts_NextHop.MacAddress←lit:StringValue{Value=p1}", "Afts_NextHopKey.NextHop←lit:Afts_NextHop{}"},
	"nextHopEntry.WithNetworkInstance":           {"nextHopEntry.ni←p1"},
	"nextHopEntry.WithNextHopNetworkInstance":    {"Afts_NextHop.NetworkInstance←lit:StringValue{Value=p1}", "Afts_NextHopKey.NextHop←lit:Afts_NextHop{}"},
	"nextHopEntry.WithPopTopLabel":               {"Afts_NextHop.PopTopLabel←lit:BoolValue{Value=const}", "Afts_NextHopKey.NextHop←lit:Afts_NextHop{}"},
	"nextHopEntry.WithPushedLabelStack":          {"Afts_NextHop.PushedMplsLabelStack←[]", "Afts_NextHop.PushedMplsLabelStack←append([lit:Afts_NextHop_PushedMplsLabelStackUnion{PushedMplsLabelStackUint64=elem(p1)}])", "Afts_NextHopKey.NextHop←lit:Afts_NextHop{}"},
	"nextHopEntry.WithSubinterfaceRef":           {"Afts_NextHop.InterfaceRef←lit:Afts_NextHop_InterfaceRef{Interface=lit:StringValue{Value=p1},Subinterface=lit:UintValue{Value=p2}}", "Afts_NextHopKey.NextHop←lit:Afts_NextHop{}"},
	"nextHopGroupEntry.AddNextHop":               {"Afts_NextHopGroup.NextHop←append([lit:Afts_NextHopGroup_NextHopKey{Index=p1,NextHop=lit:Afts_NextHopGroup_NextHop{Weight=lit:UintValue{Value=p2}}}])"},
	"nextHopGroupEntry.WithBackupNHG":            {"Afts_NextHopGroup.BackupNextHopGroup←lit:UintValue{Value=p1}"},
	"nextHopGroupEntry.WithElectionID":           {"nextHopGroupEntry.electionID←lit:Uint128{High=p2,Low=p1}"},
	"nextHopGroupEntry.WithID":                   {"Afts_NextHopGroupKey.Id←p1"},
	"nextHopGroupEntry.WithNetworkInstance":      {"nextHopGroupEntry.ni←p1"},
	"mplsEncapHeader.WithLabels":                 {"Afts_NextHop_EncapHeader_Mpls.MplsLabelStack←append([lit:Afts_NextHop_EncapHeader_Mpls_MplsLabelStackUnion{MplsLabelStackUint64=elem(p1)}])"},
	"udpv6EncapHeader.WithDSCP":                  {"Afts_NextHop_EncapHeader_UdpV6.Dscp←lit:UintValue{Value=p1}"},
	"udpv6EncapHeader.WithDstIP":                 {"Afts_NextHop_EncapHeader_UdpV6.DstIp←lit:StringValue{Value=p1}"},
	"udpv6EncapHeader.WithDstUDPPort":            {"Afts_NextHop_EncapHeader_UdpV6.DstUdpPort←lit:UintValue{Value=p1}"},
	"udpv6EncapHeader.WithIPTTL":                 {"Afts_NextHop_EncapHeader_UdpV6.IpTtl←lit:UintValue{Value=p1}"},
	"udpv6EncapHeader.WithSrcIP":                 {"Afts_NextHop_EncapHeader_UdpV6.SrcIp←lit:StringValue{Value=p1}"},
	"udpv6EncapHeader.WithSrcUDPPort":            {"Afts_NextHop_EncapHeader_UdpV6.SrcUdpPort←lit:UintValue{Value=p1}"},
}

func ruleSetterRows(c *Ctx) {
	const rule = "SETTER-ROWS"
	sp := c.P.SSAPkgs[fluentPkg]
	if sp == nil {
		c.vanished(rule, "fluent", "package", "package not loaded")
		return
	}
	builders := []string{"ipv4Entry", "ipv6Entry", "labelEntry", "nextHopEntry", "nextHopGroupEntry", "mplsEncapHeader", "udpv6EncapHeader"}
	n := 0
	dump := strings.Contains(strings.Join(osArgs(), " "), "dump-setters")
	for _, b := range builders {
		tn, _ := sp.Pkg.Scope().Lookup(b).(*types.TypeName)
		if tn == nil {
			c.vanished(rule, "fluent."+b, "type", "builder type not found")
			continue
		}
		ms := c.P.SSA.MethodSets.MethodSet(types.NewPointer(tn.Type()))
		var names []string
		fns := map[string]*ssa.Function{}
		for i := 0; i < ms.Len(); i++ {
			fn := c.P.SSA.MethodValue(ms.At(i))
			if fn == nil || fn.Synthetic != "" {
				continue
			}
			nm := fn.Name()
			if strings.HasPrefix(nm, "With") || strings.HasPrefix(nm, "Add") {
				names = append(names, nm)
				fns[nm] = fn
			}
		}
		sort.Strings(names)
		for _, nm := range names {
			n++
			c.Sites++
			sig := storeSig(fns[nm], 2)
			key := b + "." + nm
			if dump {
				fmt.Printf("\t%q: {%s},\n", key, quoteJoin(sig))
				continue
			}
			want, ok := setterRows[key]
			pos := c.P.pos(fns[nm].Pos())
			if !ok {
				c.fail(rule, "fluent.(*"+b+")."+nm, "row", pos, "setter has no frozen row (new builder method): its effect must be confirmed and added to the table; it stores "+strings.Join(sig, " ; "))
				continue
			}
			c.check(canonRow(strings.Join(sig, " ; ")) == canonRow(strings.Join(want, " ; ")), rule, "fluent.(*"+b+")."+nm, "row", pos, strings.Join(sig, " ; "),
				fmt.Sprintf("setter stores [%s], its frozen row is [%s]", strings.Join(sig, " ; "), strings.Join(want, " ; ")))
			// returns its receiver
			retOK := true
			for _, blk := range fns[nm].Blocks {
				for _, in := range blk.Instrs {
					if r, ok := in.(*ssa.Return); ok {
						if len(r.Results) != 1 || r.Results[0] != fns[nm].Params[0] {
							retOK = false
						}
					}
				}
			}
			if !retOK {
				c.fail(rule, "fluent.(*"+b+")."+nm, "returns receiver", pos, "a builder method does not return its receiver: chained calls would act on another builder")
			}
		}
	}
	for key := range setterRows {
		parts := strings.SplitN(key, ".", 2)
		found := false
		if tn, _ := sp.Pkg.Scope().Lookup(parts[0]).(*types.TypeName); tn != nil {
			ms := c.P.SSA.MethodSets.MethodSet(types.NewPointer(tn.Type()))
			for i := 0; i < ms.Len(); i++ {
				if ms.At(i).Obj().Name() == parts[1] {
					found = true
				}
			}
		}
		if !found && !dump {
			c.vanished(rule, "fluent.(*"+parts[0]+")."+parts[1], "row", "frozen setter row has no method any more")
		}
	}
	if !dump {
		c.floor(rule, "builder setter methods", n, 43)
	}
}

func quoteJoin(s []string) string {
	var q []string
	for _, x := range s {
		q = append(q, fmt.Sprintf("%q", x))
	}
	return strings.Join(q, ", ")
}

// R18.3 / R18.4
func ruleEntriesToModifyRequest(c *Ctx) {
	fi := c.need("fluent", "gRIBIModify", "entriesToModifyRequest")
	if fi == nil {
		return
	}
	info := fi.Pkg.TypesInfo
	recv := recvName(fi)
	opParam := paramObjs(info, fi.Decl)[0]
	var loop *ast.RangeStmt
	for _, st := range fi.Decl.Body.List {
		if rs, ok := st.(*ast.RangeStmt); ok {
			loop = rs
		}
	}
	if loop == nil {
		c.vanished("TABLE-STAMPING", fi.Name, "loop over entries", "no loop over the entries")
		return
	}
	ev := func(n ast.Node) []Event {
		var out []Event
		inspectNoFuncLit(n, func(m ast.Node) bool {
			switch x := m.(type) {
			case *ast.IncDecStmt:
				if _, p := selectorPath(info, x.X); len(p) > 0 && p[len(p)-1] == "opCount" && x.Tok == token.INC {
					out = append(out, Event{Kind: "count++", Node: x})
				}
			case *ast.AssignStmt:
				if len(x.Lhs) != 1 || len(x.Rhs) != 1 {
					return true
				}
				_, lp := selectorPath(info, x.Lhs[0])
				if len(lp) == 0 {
					return true
				}
				src := roleTerm(fi, x.Rhs[0])
				switch lp[len(lp)-1] {
				case "Op":
					out = append(out, Event{Kind: "op←" + src, Node: x})
				case "Id":
					out = append(out, Event{Kind: "id←" + src, Node: x})
				case "ElectionId":
					out = append(out, Event{Kind: "stamp←" + src, Node: x})
				case "Operation":
					out = append(out, Event{Kind: "queue", Node: x})
				case "opCount":
					out = append(out, Event{Kind: "count←?", Node: x})
				}
			}
			return true
		})
		return out
	}
	ep := "call:OpProto#1.0"
	aErr := eqAtom("call:OpProto#1.1", "nil")
	aID, _ := orderAtom("const:0", ep+".Id")
	aParent := eqAtom("nil", recv+".parent")
	aConn := eqAtom("nil", recv+".parent.connection")
	aMode := eqAtom("const:ElectedPrimaryClient", recv+".parent.connection.redundMode")
	aHas := eqAtom(ep+".ElectionId", "nil")
	_ = opParam
	runTable(c, tableSpec{
		Rule: "TABLE-STAMPING", Fn: fi, Body: loop.Body.List, Construct: "per entry: operation type, id allocation, election stamping", Events: ev,
		Atoms: map[string]int{aErr: 2, aID: 3, aParent: 2, aConn: 2, aMode: 2, aHas: 2},
		// a request that is refused is dropped with its operation: whether the verb had already been written into the
		// discarded operation is not observable
		Outcome: func(p Path) string {
			o := defaultOutcome(fi.Pkg.TypesInfo, fi.Decl, p)
			if strings.HasPrefix(o, "ret(nil, err(") {
				o = strings.NewReplacer(" effects[op←p0]", "", "effects[op←p0,", "effects[").Replace(o)
			}
			return o
		},
		Expected: func(v *Valuation) (string, bool) {
			switch {
			case !v.B(aErr):
				return "ret(nil, err(plain))", true
			case v.Ord(aID) != 0:
				return "ret(nil, err(plain))", true
			case v.B(aParent):
				return "ret(nil, err(plain))", true
			}
			evs := []string{"op←p0", "count++", "id←recv.parent.opCount"}
			if !v.B(aConn) && v.B(aMode) && v.B(aHas) {
				evs = append(evs, "stamp←recv.parent.currentElectionID")
			}
			evs = append(evs, "queue")
			return "end:fall effects[" + strings.Join(evs, ",") + "]", true
		},
	})
}

// WithInitialElectionID and UpdateElectionID both record the id they announce
func ruleElectionIDStores(c *Ctx) {
	const rule = "CURRENT-ELECTION-ID"
	for _, t := range [][2]string{{"gRIBIConnection", "WithInitialElectionID"}, {"gRIBIModify", "UpdateElectionID"}} {
		fi := c.need("fluent", t[0], t[1])
		if fi == nil {
			continue
		}
		c.Sites++
		var sig []string
		if fi.SSA != nil {
			sig = storeSig(fi.SSA, 2)
		}
		lowIdx, highIdx := 1, 2
		if t[1] == "UpdateElectionID" {
			lowIdx, highIdx = 2, 3
		}
		want := fmt.Sprintf("GRIBIClient.currentElectionID←lit:Uint128{High=p%d,Low=p%d}", highIdx, lowIdx)
		has := false
		for _, s := range sig {
			if s == want {
				has = true
			}
		}
		c.check(has, rule, fi.Name, "stores the announced id as the client's current one", c.P.pos(fi.Decl.Pos()), want, fmt.Sprintf("%s does not store Uint128{Low: low, High: high} into the client's currentElectionID (stores: %v)", t[1], sig))
		info := fi.Pkg.TypesInfo
		// … on every call: the store is a top-level statement of the function and nothing before it can leave
		// the function (a store made only when the new id is not lower leaves later operations stamped with an
		// id that is no longer the most recently set one)
		// (decided on the paths of the function, so that a helper's own return inside an inline frame is not an exit)
		evStore := func(n ast.Node) []Event {
			var out []Event
			inspectNoFuncLit(n, func(m ast.Node) bool {
				if as, ok := m.(*ast.AssignStmt); ok && len(as.Lhs) == 1 {
					if se, ok := ast.Unparen(as.Lhs[0]).(*ast.SelectorExpr); ok && se.Sel.Name == "currentElectionID" {
						out = append(out, Event{Kind: "store-current", Node: as})
					}
				}
				return true
			})
			return out
		}
		spaths, spe := enumFunc(fi, evStore, nil)
		uncond := !spe.overflow && len(spe.unsup) == 0 && len(spaths) > 0
		for _, p := range spaths {
			if p.End != "panic" && !p.has("store-current") {
				uncond = false
			}
		}
		c.check(uncond, rule, fi.Name, "the store is unconditional", c.P.pos(fi.Decl.Pos()), "top-level assignment, no earlier exit", t[1]+" records the announced id only on some paths (inside a condition, or after a possible early return): operations queued afterwards can be stamped with an id that is not the one most recently set")
		if t[1] == "UpdateElectionID" {
			// announces the same id
			ok := false
			for _, cl := range litsOfType(info, fi.Decl.Body, spbPath, "ModifyRequest") {
				if v, isV := objOfIdent(info, compositeFields(cl)["ElectionId"]).(*types.Var); isV {
					for _, as := range assignsTo(info, fi.Decl, "currentElectionID") {
						if objOfIdent(info, as) == v {
							ok = true
						}
					}
				}
			}
			c.check(ok, rule, fi.Name, "announces the id it records", c.P.pos(fi.Decl.Pos()), "Q(ModifyRequest{ElectionId: eid})", "the election id queued to the server is not the one recorded as current")
		} else {
			ok := false
			for _, s := range sig {
				if s == fmt.Sprintf("gRIBIConnection.electionID←lit:Uint128{High=p%d,Low=p%d}", highIdx, lowIdx) {
					ok = true
				}
			}
			c.check(ok, rule, fi.Name, "the initial id is also the one sent on connection", c.P.pos(fi.Decl.Pos()), "connection.electionID = eid", "the initial election id is not stored for the connection")
		}
	}
}

// assignsTo returns the right-hand sides of assignments to a field named fld.
func assignsTo(info *types.Info, fd *ast.FuncDecl, fld string) []ast.Expr {
	var out []ast.Expr
	ast.Inspect(fd.Body, func(n ast.Node) bool {
		if as, ok := n.(*ast.AssignStmt); ok && len(as.Lhs) == 1 && len(as.Rhs) == 1 {
			if se, ok := ast.Unparen(as.Lhs[0]).(*ast.SelectorExpr); ok && se.Sel.Name == fld {
				out = append(out, as.Rhs[0])
			}
		}
		return true
	})
	return out
}

// AddEntry / ReplaceEntry / DeleteEntry
func ruleModifyVerbs(c *Ctx) {
	const rule = "MODIFY-VERBS"
	conv := c.need("fluent", "gRIBIModify", "entriesToModifyRequest")
	for _, t := range [][2]string{{"AddEntry", "AFTOperation_ADD"}, {"ReplaceEntry", "AFTOperation_REPLACE"}, {"DeleteEntry", "AFTOperation_DELETE"}} {
		fi := c.need("fluent", "gRIBIModify", t[0])
		if fi == nil || conv == nil {
			continue
		}
		info := fi.Pkg.TypesInfo
		c.Sites++
		var mvar types.Object
		opOK, qOK := false, false
		entries := paramObjs(info, fi.Decl)[1]
		ast.Inspect(fi.Decl.Body, func(n ast.Node) bool {
			switch x := n.(type) {
			case *ast.AssignStmt:
				if len(x.Rhs) == 1 {
					if call, ok := ast.Unparen(x.Rhs[0]).(*ast.CallExpr); ok && calleeObj(info, call) == conv.Obj && len(call.Args) == 2 {
						// (through the parameters of a shared helper that was spliced in: op := spb.AFTOperation_ADD; entries := entries)
						if constName(info, resolveLocal(info, fi.Decl, call.Args[0])) == t[1] && aliasRootObj(info, fi.Decl, call.Args[1]) == entries {
							opOK = true
						}
						mvar = objOfIdent(info, x.Lhs[0])
					}
				}
			case *ast.CallExpr:
				if f, ok := calleeObj(info, x).(*types.Func); ok && f.Name() == "Q" && len(x.Args) == 1 && mvar != nil && objOfIdent(info, x.Args[0]) == mvar {
					qOK = true
				}
			}
			return true
		})
		c.check(opOK && qOK, rule, fi.Name, "builds the request with its own operation type and queues it", c.P.pos(fi.Decl.Pos()), t[1], fmt.Sprintf("%s does not convert its entries with %s and queue the result (op ok=%v, queued=%v)", t[0], t[1], opOK, qOK))
	}
}

// aliasRootObj follows `x := y` bindings (locals defined once by another identifier, e.g. the parameter
// bindings of a spliced-in helper) from an identifier to the object it ultimately stands for.
func aliasRootObj(info *types.Info, fd *ast.FuncDecl, e ast.Expr) types.Object {
	o := objOfIdent(info, e)
	for hops := 0; hops < 4 && o != nil; hops++ {
		v, ok := o.(*types.Var)
		if !ok || v.IsField() || isParamOf(info, fd, v) {
			break
		}
		def := soleDefinition(info, fd, v)
		if def == nil {
			break
		}
		o2 := objOfIdent(info, def)
		if o2 == nil || o2 == o {
			break
		}
		o = o2
	}
	return o
}

// the client's current election id is what the caller last set: written by WithInitialElectionID and
// UpdateElectionID only (a Start that puts the initial id back stamps every later operation of a restarted
// client with an id that is no longer the most recently set one)
func ruleCurrentElectionIDWriters(c *Ctx) {
	const rule = "CURRENT-ELECTION-ID"
	fv := c.P.Field("fluent", "GRIBIClient", "currentElectionID")
	if fv == nil {
		c.vanished(rule, "fluent.GRIBIClient", "currentElectionID", "field not found")
		return
	}
	c.P.fieldWriteOnce(fv)
	var bad, writers []string
	for _, st := range c.P.fieldStores[fv] {
		c.Sites++
		d := declaredOf(st.Parent())
		nm := "?"
		if d != nil {
			nm = d.Name()
		}
		writers = append(writers, nm)
		if nm != "WithInitialElectionID" && nm != "UpdateElectionID" {
			bad = append(bad, nm+" ("+c.P.pos(st.Pos())+")")
		}
	}
	sort.Strings(writers)
	c.check(len(bad) == 0 && len(writers) >= 2, rule, "fluent.GRIBIClient", "writers of currentElectionID", "-", "stored only by "+strings.Join(writers, ", "),
		"currentElectionID is also stored by "+strings.Join(bad, ", ")+": operations queued afterwards are stamped with an id the caller did not set last")
}

// canonRow: "the next free index of a list" is the same value whether a helper computes it or the expression
// len(list)+1 is written in place.
var nextIndexForms = regexp.MustCompile(`=(call:nextEncapHeaderKeyIndex|\+\(len\([^()]*\),const\))`)

func canonRow(s string) string { return nextIndexForms.ReplaceAllString(s, "=len(list)+const") }
